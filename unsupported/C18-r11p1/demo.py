"""C18 / p1 demo: the OPF binary -> txt/csv/json converters must preserve every sample.

Exit 0 when opfython.utils.converter behaves exactly like the original
implementation (inlined below verbatim as reference), non-zero otherwise.
"""

import json as j
import os
import struct
import sys
import tempfile
import warnings

import numpy as np

from opfython.stream import loader, parser
from opfython.utils import converter

warnings.filterwarnings("ignore")


# --------------------------------------------------------------------------
# Reference: verbatim copy of the original converter functions (no logging)
# --------------------------------------------------------------------------
def ref_opf2txt(opf_path, output_file=None):
    header_format = "<iii"
    header_size = struct.calcsize(header_format)

    with open(opf_path, "rb") as f:
        header_data = struct.unpack(header_format, f.read(header_size))

        n_samples = header_data[0]
        n_features = header_data[2]

        file_format = "<ii"
        for _ in range(n_features):
            file_format += "f"

        data_size = struct.calcsize(file_format)

        samples = []
        for _ in range(n_samples):
            data = struct.unpack(file_format, f.read(data_size))

            # Note that we subtract 1 from `labels` column
            samples.append((data[0], data[1] - 1, *data[2:]))

    if not output_file:
        output_file = opf_path.split(".")[0] + ".txt"

    np.savetxt(output_file, samples, delimiter=" ")


def ref_opf2csv(opf_path, output_file=None):
    header_format = "<iii"
    header_size = struct.calcsize(header_format)

    with open(opf_path, "rb") as f:
        header_data = struct.unpack(header_format, f.read(header_size))

        n_samples = header_data[0]
        n_features = header_data[2]

        file_format = "<ii"
        for _ in range(n_features):
            file_format += "f"

        data_size = struct.calcsize(file_format)

        samples = []
        for _ in range(n_samples):
            data = struct.unpack(file_format, f.read(data_size))

            # Note that we subtract 1 from `labels` column
            samples.append((data[0], data[1] - 1, *data[2:]))

    if not output_file:
        output_file = opf_path.split(".")[0] + ".csv"

    np.savetxt(output_file, samples, delimiter=",")


def ref_opf2json(opf_path, output_file=None):
    header_format = "<iii"
    header_size = struct.calcsize(header_format)

    with open(opf_path, "rb") as f:
        header_data = struct.unpack(header_format, f.read(header_size))

        n_samples = header_data[0]
        n_features = header_data[2]

        file_format = "<ii"
        for _ in range(n_features):
            file_format += "f"

        data_size = struct.calcsize(file_format)

        json = {"data": []}
        for _ in range(n_samples):
            data = struct.unpack(file_format, f.read(data_size))

            # Note that we subtract 1 from `labels` column
            json["data"].append(
                {"id": data[0], "label": data[1] - 1, "features": list(data[2:])}
            )

    if not output_file:
        output_file = opf_path.split(".")[0] + ".json"

    with open(output_file, "w") as f:
        j.dump(json, f)


# --------------------------------------------------------------------------
# Dataset generation
# --------------------------------------------------------------------------
def write_opf(path, ids, labels, feats, n_labels):
    n, d = feats.shape
    with open(path, "wb") as f:
        f.write(struct.pack("<iii", n, n_labels, d))
        for i in range(n):
            f.write(struct.pack("<ii" + "f" * d, int(ids[i]), int(labels[i]), *feats[i]))


def make_case(seed):
    rng = np.random.RandomState(seed)
    n = int(rng.randint(2, 70))
    d = int(rng.randint(1, 7))
    k = int(rng.randint(1, min(n, 6) + 1))

    # every label 1..k present, stored 1-based as the OPF format asks for
    labels = np.concatenate((np.arange(1, k + 1), rng.randint(1, k + 1, n - k)))
    rng.shuffle(labels)

    kind = seed % 6
    if kind in (0, 1):
        feats = rng.randn(n, d) * 10 ** rng.randint(-3, 4)
    elif kind == 2:
        # tie-heavy: few distinct integer-valued points, many duplicates
        feats = rng.randint(0, 3, (n, d)).astype(float)
    elif kind == 3:
        # tie-heavy: duplicated rows
        base = rng.rand(3, d)
        feats = base[rng.randint(0, 3, n)]
    else:
        feats = rng.rand(n, d)
    feats = feats.astype(np.float32)

    style = seed % 5
    if style == 0:
        ids = np.arange(n)
    elif style == 1:
        ids = np.arange(1, n + 1)
    elif style == 2:
        # a split of a bigger set keeps the original row numbers
        ids = rng.permutation(5 * n)[:n]
    elif style == 3:
        ids = rng.permutation(n)
    else:
        # identifiers that are row numbers / keys of a big table
        ids = 20_000_001 + rng.permutation(3 * n)[:n] * 3

    return ids.astype(np.int64), labels.astype(np.int64), feats, k


def fail(msg):
    print("FAIL:", msg)
    sys.exit(1)


def check_case(tmp, name, ids, labels, feats, k):
    opf = os.path.join(tmp, name + ".dat")
    write_opf(opf, ids, labels, feats, k)

    pairs = (
        ("txt", ref_opf2txt, converter.opf2txt, loader.load_txt),
        ("csv", ref_opf2csv, converter.opf2csv, loader.load_csv),
        ("json", ref_opf2json, converter.opf2json, loader.load_json),
    )

    parsed = {}
    for ext, ref, new, load in pairs:
        ref_out = os.path.join(tmp, name + "_ref." + ext)
        new_out = os.path.join(tmp, name + "_new." + ext)

        ref(opf, ref_out)
        new(opf, new_out)

        with open(ref_out, "rb") as f:
            a = f.read()
        with open(new_out, "rb") as f:
            b = f.read()
        if a != b:
            fail("%s: .%s written by the converter differs from the original" % (name, ext))

        if len(ids) < 2:
            continue

        data = load(new_out)
        X, Y = parser.parse_loader(data)
        parsed[ext] = (data[:, 0], X, Y)

        if not np.array_equal(data[:, 0], ids.astype(float)):
            fail("%s: identifiers not preserved in .%s" % (name, ext))
        if not np.array_equal(X, feats.astype(np.float64)):
            fail("%s: features are not the stored float32 values in .%s" % (name, ext))
        if not np.array_equal(Y, labels - 1) or Y.dtype.kind != "i":
            fail("%s: labels not shifted to start at 0 in .%s" % (name, ext))

    if parsed:
        t, c, s = parsed["txt"], parsed["csv"], parsed["json"]
        for u, v in ((t, c), (t, s)):
            if not all(np.array_equal(p, q) for p, q in zip(u, v)):
                fail("%s: the three formats disagree" % name)


def main():
    with tempfile.TemporaryDirectory() as tmp:
        # (1) 42 seeded datasets: sizes, dimensions, label sets, id styles, ties
        for seed in range(42):
            check_case(tmp, "case%02d" % seed, *make_case(seed))

        # (2) the specific input: a small file whose identifiers are large
        # (>= 2**24) odd numbers, e.g. primary keys of a big table
        ids = np.array([16_777_217, 16_777_219, 33_554_435, 123_456_789, 2_000_000_001])
        labels = np.array([1, 2, 1, 2, 2])
        feats = np.array(
            [[0.1, 1.0], [0.1, 1.0], [2.5, -3.0], [1e-3, 7.0], [0.1, 1.0]], dtype=np.float32
        )
        check_case(tmp, "bigids", ids, labels, feats, 2)

        # empty file and default output name
        check_case(tmp, "empty", np.zeros(0, int), np.zeros(0, int), np.zeros((0, 3), np.float32), 1)

        opf = os.path.join(tmp, "default.dat")
        ids, labels, feats, k = make_case(7)
        write_opf(opf, ids, labels, feats, k)
        sub = os.path.join(tmp, "refdir")
        os.mkdir(sub)
        opf2 = os.path.join(sub, "default.dat")
        write_opf(opf2, ids, labels, feats, k)
        for ext, ref, new in (
            ("txt", ref_opf2txt, converter.opf2txt),
            ("csv", ref_opf2csv, converter.opf2csv),
            ("json", ref_opf2json, converter.opf2json),
        ):
            new(opf)
            ref(opf2)
            with open(os.path.join(tmp, "default." + ext), "rb") as f:
                a = f.read()
            with open(os.path.join(sub, "default." + ext), "rb") as f:
                b = f.read()
            if a != b:
                fail("default output name / content differs for ." + ext)

        # parsing rejects non-sequential labels
        bad = np.array([[0, 0, 1.0], [1, 2, 2.0], [2, 2, 3.0]])
        try:
            parser.parse_loader(bad)
        except Exception:
            pass
        else:
            fail("non-sequential labels accepted")

        # the shipped boat data
        for ext, new, load in (
            ("txt", converter.opf2txt, loader.load_txt),
            ("csv", converter.opf2csv, loader.load_csv),
            ("json", converter.opf2json, loader.load_json),
        ):
            out = os.path.join(tmp, "boat." + ext)
            new("data/boat.dat", out)
            if not np.array_equal(load(out), load("data/boat." + ext)):
                fail("boat." + ext + " differs from the shipped file")

    print("OK")
    sys.exit(0)


if __name__ == "__main__":
    main()
