"""Demo for pair p2 (property C04, supervised half).

Run as:  cd /tmp/wt/C04 && PYTHONPATH=/tmp/wt/C04 /venv/bin/python demo.py

* Part 1 replays 40 seeded `SupervisedOPF.learn` histories (several metrics, tie-heavy integer
  grids, duplicated rows, pre-computed distances, repeated learn on the same object) plus 8
  fit / predict / prune histories, and compares every observable (node features, labels, costs,
  predecessors, prototypes, relevance, ordering, predictions, the exchanged training /
  validation arrays) between the library class and a reference subclass that carries a VERBATIM
  copy of the original `learn` (which keeps the best classifier with `copy.deepcopy(self)`).
  When the classes offer a `copy()` helper it is also compared with `copy.deepcopy`.
* Part 2 checks the property on the classifier returned by `learn` for tie-free data: its
  training samples (the nodes: features + true labels) must be predicted with their own labels
  and the stored optimum-path costs must be the ones of a forest grown on those very samples.

Exit code 0 = identical to the original and property holds; 1 otherwise.
"""

import copy
import logging
import sys

import numpy as np

logging.disable(logging.CRITICAL)

import opfython.math.general as g  # noqa: E402
import opfython.math.random as r  # noqa: E402
import opfython.utils.constants as c  # noqa: E402
from opfython.models.supervised import SupervisedOPF  # noqa: E402

METRICS = [
    "log_squared_euclidean",
    "euclidean",
    "manhattan",
    "chebyshev",
    "squared_euclidean",
    "canberra",
    "bray_curtis",
    "gaussian",
]


class RefSupervisedOPF(SupervisedOPF):
    """Original `learn`, copied verbatim (logging removed)."""

    def learn(self, X_train, Y_train, X_val, Y_val, n_iterations=10):
        max_acc = -1
        previous_acc = 0

        t = 0
        while True:
            self.fit(X_train, Y_train)

            preds = self.predict(X_val)

            acc = g.opf_accuracy(Y_val, preds)
            if acc > max_acc:
                max_acc = acc
                best_opf = copy.deepcopy(self)
                best_t = t

            errors = np.argwhere(Y_val != preds).flatten()

            non_prototypes = 0
            for n in self.subgraph.nodes:
                if n.status != c.PROTOTYPE:
                    non_prototypes += 1

            for err in errors:
                ctr = non_prototypes

                while ctr > 0:
                    j = int(r.generate_uniform_random_number(0, len(X_train))[0])

                    if self.subgraph.nodes[j].status != c.PROTOTYPE:
                        X_train[j, :], X_val[err, :] = (
                            X_val[err, :].copy(),
                            X_train[j, :].copy(),
                        )
                        Y_train[j], Y_val[err] = Y_val[err], Y_train[j]

                        non_prototypes -= 1
                        ctr = 0

                    else:
                        ctr -= 1

            delta = np.fabs(acc - previous_acc)
            previous_acc = acc

            t += 1

            if delta < 0.0001 or t == n_iterations:
                self.__dict__.update(best_opf.__dict__)

                break


def make_data(seed, n, n_classes, kind):
    rng = np.random.RandomState(seed)
    Y = np.arange(n) % n_classes
    rng.shuffle(Y)
    if kind == "overlap":
        X = np.abs(rng.normal(size=(n, 3)) + 0.9 * Y[:, None]) + 0.1
    elif kind == "separated":
        X = np.abs(rng.normal(size=(n, 3)) * 0.3 + 4.0 * Y[:, None]) + 0.1
    elif kind == "grid":  # tie-heavy: small integer lattice, many equal distances
        X = rng.randint(0, 4, size=(n, 3)).astype(float) + 1.0
    elif kind == "dups":  # duplicated rows with conflicting labels
        X = rng.randint(0, 3, size=(n, 3)).astype(float) + 1.0
        X[n // 2:] = X[: n - n // 2]
    else:
        raise ValueError(kind)
    return X, Y.astype(int)


def hexes(a):
    return [float(v).hex() for v in np.asarray(a, dtype=float).ravel()]


def dump(opf):
    sub = opf.subgraph
    return {
        "features": [hexes(n.features) for n in sub.nodes],
        "idx": [int(n.idx) for n in sub.nodes],
        "label": [int(n.label) for n in sub.nodes],
        "predicted": [int(n.predicted_label) for n in sub.nodes],
        "pred": [int(n.pred) for n in sub.nodes],
        "status": [int(n.status) for n in sub.nodes],
        "relevant": [int(n.relevant) for n in sub.nodes],
        "cost": [float(n.cost).hex() for n in sub.nodes],
        "idx_nodes": [int(i) for i in sub.idx_nodes],
        "trained": bool(sub.trained),
        "distance": opf.distance,
        "pre": bool(opf.pre_computed_distance),
        "pre_distances": None if opf.pre_distances is None else hexes(opf.pre_distances),
    }


def learn_scenario(i, OPF):
    kind = ["overlap", "grid", "overlap", "dups", "separated"][i % 5]
    n_classes = 2 + (i % 3 == 0)
    n = 26 + (i * 7) % 15
    metric = METRICS[i % len(METRICS)]
    X, Y = make_data(100 + i, n, n_classes, kind)
    Xv, Yv = make_data(300 + i, 14, n_classes, kind)
    Xt, _ = make_data(500 + i, 20, n_classes, kind)
    out = {}

    opf = OPF(distance=metric)
    if i % 8 == 7:
        rng = np.random.RandomState(700 + i)
        D = rng.rand(n, n)
        D = (D + D.T) / 2
        np.fill_diagonal(D, 0.0)
        opf.pre_computed_distance = True
        opf.pre_distances = D

    np.random.seed(i)
    opf.learn(X, Y, Xv, Yv, n_iterations=3 + i % 5)
    out["model"] = dump(opf)
    out["arrays"] = [hexes(X), Y.tolist(), hexes(Xv), Yv.tolist()]
    out["preds_test"] = [int(p) for p in opf.predict(Xt[:14])]
    out["relevant_after"] = [int(nd.relevant) for nd in opf.subgraph.nodes]

    if i % 4 == 1:
        # Same object learns again, from the arrays the first run has left behind
        np.random.seed(1000 + i)
        opf.learn(X, Y, Xv, Yv, n_iterations=4)
        out["model2"] = dump(opf)
        out["arrays2"] = [hexes(X), Y.tolist(), hexes(Xv), Yv.tolist()]
        out["preds_test2"] = [int(p) for p in opf.predict(Xt[:14])]
    return out


def plain_scenario(i, OPF):
    kind = ["overlap", "grid", "dups", "separated"][i % 4]
    n = 30 + 2 * i
    X, Y = make_data(2000 + i, n, 2 + i % 2, kind)
    Xv, Yv = make_data(2100 + i, 12, 2 + i % 2, kind)
    out = {}
    opf = OPF(distance=METRICS[(3 * i) % len(METRICS)])
    I = np.random.RandomState(i).permutation(n)
    if i % 2:
        rng = np.random.RandomState(2200 + i)
        D = rng.rand(n, n)
        D = (D + D.T) / 2
        np.fill_diagonal(D, 0.0)
        opf.pre_computed_distance = True
        opf.pre_distances = D
        opf.fit(X, Y, I_train=I)
        out["preds_train"] = [int(p) for p in opf.predict(X, I_val=I)]
    else:
        opf.fit(X, Y)
        out["preds_train"] = [int(p) for p in opf.predict(X)]
        out["preds"] = [int(p) for p in opf.predict(Xv)]
    out["fit"] = dump(opf)

    if hasattr(opf, "copy"):
        # A `copy()` helper has to behave like `copy.deepcopy`: same content, nothing shared
        # with the training arrays or with the live subgraph
        twin, deep = opf.copy(), copy.deepcopy(opf)
        saved = X.copy()
        X += 1.0
        opf.subgraph.nodes[0].relevant = c.RELEVANT
        opf.subgraph.idx_nodes.append(0)
        out["copy_equals_deepcopy"] = dump(twin) == dump(deep)
        X[:] = saved
        opf.subgraph.nodes[0].relevant = twin.subgraph.nodes[0].relevant
        opf.subgraph.idx_nodes.pop()
    else:
        out["copy_equals_deepcopy"] = True

    if i % 2 == 0:
        try:
            opf.prune(X, Y, Xv, Yv, n_iterations=3)
            out["prune"] = dump(opf)
        except IndexError as error:  # pruning may leave a single class: original behaviour, too
            out["prune"] = repr(error)
    return out


def run_all(OPF):
    res = {}
    for i in range(40):
        res["learn%02d" % i] = learn_scenario(i, OPF)
    for i in range(8):
        res["plain%02d" % i] = plain_scenario(i, OPF)
    return res


def property_check():
    """The classifier kept by `learn` labels its own training samples correctly (tie-free data)."""

    bad = []
    for seed in range(16):
        n = 36
        X, Y = make_data(40 + seed, n, 2 + seed % 2, "overlap")
        Xv, Yv = make_data(80 + seed, 16, 2 + seed % 2, "overlap")
        opf = SupervisedOPF(distance=METRICS[seed % 3])
        np.random.seed(seed)
        opf.learn(X, Y, Xv, Yv, n_iterations=6)

        nodes = opf.subgraph.nodes
        F = np.stack([nd.features for nd in nodes])
        L = np.array([nd.label for nd in nodes])
        costs = [float(nd.cost) for nd in nodes]

        own = [j for j, nd in enumerate(nodes) if nd.predicted_label != nd.label]
        preds = np.array(opf.predict(F.copy()))
        wrong = np.flatnonzero(preds != L).tolist()

        fresh = SupervisedOPF(distance=opf.distance)
        fresh.fit(F.copy(), L.copy())
        stale = [j for j, nd in enumerate(fresh.subgraph.nodes) if float(nd.cost) != costs[j]]

        if own or wrong or stale:
            bad.append((seed, own, wrong, stale))
    return bad


def main():
    res = run_all(SupervisedOPF)
    ref = run_all(RefSupervisedOPF)

    status = 0
    diffs = [k for k in sorted(ref) if res.get(k) != ref[k]]
    if diffs:
        status = 1
        print("MISMATCH against the original behaviour in scenarios:", diffs)
        for k in diffs[:3]:
            for field in ref[k]:
                if res[k].get(field) != ref[k][field]:
                    print("   ", k, "differs in", field)
    else:
        print("all", len(ref), "scenarios identical to the original")
    flagged = [k for k in sorted(res) if res[k].get("copy_equals_deepcopy") is False]
    if flagged:
        status = 1
        print("copy() is not an independent deep copy in:", flagged)

    bad = property_check()
    if bad:
        status = 1
        for seed, own, wrong, stale in bad[:6]:
            print(
                "PROPERTY VIOLATED after learn(): seed=%d  nodes with foreign label=%s  "
                "training samples mispredicted=%s  nodes whose cost does not belong to their features=%s"
                % (seed, own, wrong, stale)
            )
    else:
        print("property holds: the learned classifier reproduces the labels of its own training samples")
    return status


if __name__ == "__main__":
    sys.exit(main())
