"""Demo for C20 / p1: evaluation measures against a verbatim copy of the original code.

Exit 0 when every observable result is bit-identical to the original implementation
and agrees with the textbook definitions, non-zero otherwise.
"""

import sys

import numpy as np

from opfython.math import general as g


# --------------------------------------------------------------------------- #
# Verbatim copies of the original functions (reference)
# --------------------------------------------------------------------------- #
def ref_confusion_matrix(labels, preds):
    labels = np.asarray(labels)
    preds = np.asarray(preds)

    n_class = np.max(labels) + 1

    c_matrix = np.zeros((n_class, n_class))
    for label, pred in zip(labels, preds):
        c_matrix[label][pred] += 1

    return c_matrix


def ref_normalize(array):
    mean = np.mean(array, axis=0)
    std = np.std(array, axis=0)

    norm_array = (array - mean) / std

    return norm_array


def ref_opf_accuracy(labels, preds):
    labels = np.asarray(labels)
    preds = np.asarray(preds)

    n_class = np.max(labels) + 1

    errors = np.zeros((n_class, 2))
    counts = np.bincount(labels)

    for label, pred in zip(labels, preds):
        if label != pred:
            errors[pred][0] += 1
            errors[label][1] += 1

    errors[:, 1] /= counts
    errors[:, 0] /= np.nansum(counts) - counts
    errors = np.nansum(errors, axis=1)

    accuracy = 1 - (np.sum(errors) / (2 * n_class))

    return accuracy


def ref_opf_accuracy_per_label(labels, preds):
    labels = np.asarray(labels)
    preds = np.asarray(preds)

    n_class = np.max(labels) + 1

    errors = np.zeros(n_class)
    _, counts = np.unique(labels, return_counts=True)

    for label, pred in zip(labels, preds):
        if label != pred:
            errors[label] += 1

    errors /= counts
    accuracy = 1 - errors

    return accuracy


def ref_purity(labels, preds):
    c_matrix = ref_confusion_matrix(labels, preds)
    _purity = np.sum(np.max(c_matrix, axis=0)) / len(labels)

    return _purity


# --------------------------------------------------------------------------- #
# Helpers
# --------------------------------------------------------------------------- #
FAILURES = []


def same(a, b):
    """Bit-identical comparison (type, dtype, shape and every value)."""

    a_arr, b_arr = np.asarray(a), np.asarray(b)
    if isinstance(a, np.ndarray) != isinstance(b, np.ndarray):
        return False
    if a_arr.dtype != b_arr.dtype or a_arr.shape != b_arr.shape:
        return False
    return a_arr.tobytes() == b_arr.tobytes()


def outcome(fn, *args):
    """Result of a call, or the exception class when it raises."""

    with np.errstate(all="ignore"):
        try:
            return ("ok", fn(*args))
        except Exception as exc:  # pylint: disable=broad-except
            return ("raise", type(exc).__name__)


def check(tag, fn, ref, *args):
    got, exp = outcome(fn, *args), outcome(ref, *args)
    if got[0] != exp[0]:
        FAILURES.append(f"{tag}: {got} vs reference {exp}")
    elif got[0] == "raise":
        if got[1] != exp[1]:
            FAILURES.append(f"{tag}: raised {got[1]}, reference raised {exp[1]}")
    elif not same(got[1], exp[1]):
        FAILURES.append(f"{tag}: got {got[1]!r}, reference {exp[1]!r}")


def check_all_measures(tag, labels, preds):
    check(tag + "/confusion_matrix", g.confusion_matrix, ref_confusion_matrix, labels, preds)
    check(tag + "/opf_accuracy", g.opf_accuracy, ref_opf_accuracy, labels, preds)
    check(
        tag + "/opf_accuracy_per_label",
        g.opf_accuracy_per_label,
        ref_opf_accuracy_per_label,
        labels,
        preds,
    )
    check(tag + "/purity", g.purity, ref_purity, labels, preds)


def textbook_accuracy(labels, preds):
    """1 - 1/(2K) * sum_c (FP_c / (N - N_c) + FN_c / N_c), written independently."""

    labels, preds = np.asarray(labels), np.asarray(preds)
    n, k = labels.size, int(labels.max()) + 1
    total = 0.0
    for c in range(k):
        n_c = int(np.sum(labels == c))
        f_p = int(np.sum((preds == c) & (labels != c)))
        f_n = int(np.sum((labels == c) & (preds != c)))
        total += f_p / (n - n_c) + f_n / n_c
    return 1 - total / (2 * k)


def make_pair(rng, n, k, weights, flip):
    """Random labels with every class present and predictions with `flip` error rate."""

    labels = np.concatenate([np.arange(k), rng.choice(k, size=n - k, p=weights)])
    rng.shuffle(labels)
    preds = labels.copy()
    wrong = rng.random(n) < flip
    preds[wrong] = rng.integers(0, k, size=int(wrong.sum()))
    return labels, preds


# --------------------------------------------------------------------------- #
# 1. Seeded sweep against the reference
# --------------------------------------------------------------------------- #
n_inputs = 0
for seed in range(48):
    rng = np.random.default_rng(seed)
    k = int(rng.integers(2, 7))
    n = int(rng.integers(k + 2, 90))

    kind = seed % 4
    if kind == 0:  # balanced draw
        weights = np.full(k, 1.0 / k)
    elif kind == 1:  # strongly imbalanced
        weights = rng.dirichlet(np.full(k, 0.3))
    elif kind == 2:  # one dominant class
        weights = np.full(k, 0.1 / (k - 1))
        weights[int(rng.integers(k))] = 0.9
    else:  # mildly imbalanced
        weights = rng.dirichlet(np.full(k, 3.0))

    labels, preds = make_pair(rng, n, k, weights, flip=float(rng.uniform(0.0, 0.8)))
    tag = f"seed{seed}"

    check_all_measures(tag, labels, preds)
    # Lists, int32 arrays, perfect predictions and "everything to one class" (tie-heavy)
    check_all_measures(tag + "/list", labels.tolist(), preds.tolist())
    check_all_measures(tag + "/int32", labels.astype(np.int32), preds.astype(np.int32))
    check_all_measures(tag + "/perfect", labels, labels.copy())
    check_all_measures(tag + "/const", labels, np.full(n, int(rng.integers(k))))
    # Predictions that never use the last class, and a missing true class
    check_all_measures(tag + "/clip", labels, np.minimum(preds, k - 2 if k > 2 else 0))
    gap = labels.copy()
    gap[gap == 0] = k - 1
    check_all_measures(tag + "/gap", gap, preds)

    # Per-label accuracy never indexes by the prediction: labels outside the range are legal
    over = preds.copy()
    over[:: 3] = k + 2
    check(tag + "/per_label_over", g.opf_accuracy_per_label, ref_opf_accuracy_per_label, labels, over)
    check(tag + "/accuracy_over", g.opf_accuracy, ref_opf_accuracy, labels, over)

    # Definition: matches the textbook formula, in [0, 1], 1 iff perfect
    acc = g.opf_accuracy(labels, preds)
    if abs(acc - textbook_accuracy(labels, preds)) > 1e-12:
        FAILURES.append(f"{tag}: opf_accuracy {acc!r} != definition {textbook_accuracy(labels, preds)!r}")
    if not 0.0 <= acc <= 1.0:
        FAILURES.append(f"{tag}: opf_accuracy {acc!r} out of [0, 1]")
    if (acc == 1.0) != bool(np.all(labels == preds)):
        FAILURES.append(f"{tag}: opf_accuracy == 1 does not coincide with perfect predictions")

    # Recall per class
    recall = np.array([np.mean(preds[labels == c] == c) for c in range(k)])
    if not np.allclose(g.opf_accuracy_per_label(labels, preds), recall, rtol=0, atol=1e-12):
        FAILURES.append(f"{tag}: per-label accuracy is not the recall")

    # normalize on 1-D / 2-D arrays (float64, float32, integers, lists)
    data = rng.normal(size=(n, int(rng.integers(1, 6)))) * rng.uniform(0.1, 50)
    for sub, arr in (
        ("2d", data),
        ("1d", data[:, 0]),
        ("f32", data.astype(np.float32)),
        ("int", rng.integers(0, 4, size=(n, 3))),
        ("list", data[:, 0].tolist()),
    ):
        check(f"{tag}/normalize/{sub}", g.normalize, ref_normalize, arr)

    n_inputs += 1

# Repeated calls must not carry state over
labels, preds = [0, 0, 1, 1, 2], [0, 1, 1, 2, 2]
for rep in range(3):
    check_all_measures(f"repeat{rep}", labels, preds)

# Empty input raises just like before
check("empty/opf_accuracy", g.opf_accuracy, ref_opf_accuracy, [], [])
check("empty/per_label", g.opf_accuracy_per_label, ref_opf_accuracy_per_label, [], [])

# --------------------------------------------------------------------------- #
# 2. The specific input: imbalanced classes with asymmetric errors
# --------------------------------------------------------------------------- #
# Six samples of class 0, two of class 1; one class-0 sample is predicted as class 1.
#   FP = [0, 1], FN = [1, 0], N_c = [6, 2], N - N_c = [2, 6]
#   accuracy = 1 - (1/4) * (0/2 + 1/6 + 1/6 + 0/2) = 11/12
labels = [0, 0, 0, 0, 0, 0, 1, 1]
preds = [0, 0, 0, 0, 0, 1, 1, 1]
acc = g.opf_accuracy(labels, preds)
if acc != ref_opf_accuracy(labels, preds) or abs(acc - 11.0 / 12.0) > 1e-12:
    FAILURES.append(f"specific: opf_accuracy({labels}, {preds}) = {acc!r}, expected 11/12 = {11 / 12!r}")

# Three classes (10 / 3 / 2 samples): the minority classes absorb the errors of the majority one
labels = [0] * 10 + [1] * 3 + [2] * 2
preds = [0] * 6 + [1, 1, 2, 2] + [1, 1, 0] + [2, 2]
acc = g.opf_accuracy(labels, preds)
if acc != ref_opf_accuracy(labels, preds) or abs(acc - textbook_accuracy(labels, preds)) > 1e-12:
    FAILURES.append(f"specific-3: opf_accuracy = {acc!r}, definition gives {textbook_accuracy(labels, preds)!r}")

if FAILURES:
    print(f"{len(FAILURES)} mismatches (showing up to 15):")
    for line in FAILURES[:15]:
        print("  -", line)
    sys.exit(1)

print(f"OK: {n_inputs} seeded inputs (x variants) identical to the original; definitions hold")
sys.exit(0)
