"""C14 / p1 demo: KNNSupervisedOPF.predict against a verbatim copy of the original.

exit 0  -> library predict is indistinguishable from the original on every scenario
exit 1  -> some prediction differs (printed)
"""

import logging
import sys
import warnings

import numpy as np

logging.disable(logging.CRITICAL)
warnings.filterwarnings("ignore")

import opfython.utils.constants as c  # noqa: E402
from opfython.models.knn_supervised import KNNSupervisedOPF  # noqa: E402
from opfython.subgraphs import KNNSubgraph  # noqa: E402


# --------------------------------------------------------------------------
# verbatim copy of the ORIGINAL KNNSupervisedOPF.predict (timing/logging cut)
# --------------------------------------------------------------------------
def ref_predict(self, X_test, I_test=None):
    pred_subgraph = KNNSubgraph(X_test, I=I_test)

    best_k = self.subgraph.best_k

    distances = np.zeros(best_k + 1)
    neighbours_idx = np.zeros(best_k + 1)

    for i in range(pred_subgraph.n_nodes):
        cost = c.FLOAT_MAX * -1

        distances.fill(c.FLOAT_MAX)

        for j in range(self.subgraph.n_nodes):
            if self.pre_computed_distance:
                distances[best_k] = self.pre_distances[pred_subgraph.nodes[i].idx][
                    self.subgraph.nodes[j].idx
                ]
            else:
                distances[best_k] = self.distance_fn(
                    pred_subgraph.nodes[i].features,
                    self.subgraph.nodes[j].features,
                )

            neighbours_idx[best_k] = j
            cur_k = best_k

            while cur_k > 0 and distances[cur_k] < distances[cur_k - 1]:
                distances[cur_k], distances[cur_k - 1] = (
                    distances[cur_k - 1],
                    distances[cur_k],
                )

                neighbours_idx[cur_k], neighbours_idx[cur_k - 1] = (
                    neighbours_idx[cur_k - 1],
                    neighbours_idx[cur_k],
                )

                cur_k -= 1

        density = 0.0
        for k in range(best_k):
            density += np.exp(-distances[k] / self.subgraph.constant)
        density /= best_k

        density = (
            (c.MAX_DENSITY - 1)
            * (density - self.subgraph.min_density)
            / (self.subgraph.max_density - self.subgraph.min_density + c.EPSILON)
        ) + 1

        for k in range(best_k):
            if distances[k] != c.FLOAT_MAX:
                neighbour = int(neighbours_idx[k])

                temp_cost = np.minimum(self.subgraph.nodes[neighbour].cost, density)
                if temp_cost > cost:
                    cost = temp_cost

                    pred_subgraph.nodes[i].predicted_label = self.subgraph.nodes[
                        neighbour
                    ].predicted_label

    return [pred.predicted_label for pred in pred_subgraph.nodes]


LIB_PREDICT = KNNSupervisedOPF.predict

FAILURES = []
N_SCENARIOS = 0
N_QUERIES = 0


def check(tag, got, want):
    global N_QUERIES
    N_QUERIES += len(want)
    if list(got) != list(want):
        bad = [i for i, (a, b) in enumerate(zip(got, want)) if a != b]
        FAILURES.append(
            "%s: %d/%d predictions differ, first at query %d: got %r, original gives %r"
            % (tag, len(bad), len(want), bad[0], got[bad[0]], want[bad[0]])
        )


def model_state(opf):
    sg = opf.subgraph
    return (
        sg.best_k,
        sg.constant,
        sg.min_density,
        sg.max_density,
        [(n.cost, n.density, n.pred, n.root, n.predicted_label) for n in sg.nodes],
    )


def fit_both(make_opf, fit_args):
    """Fits once with the library predict and once with the original one
    (fit() calls predict() while it searches for the best k)."""

    opf = make_opf()
    opf.fit(*fit_args)

    KNNSupervisedOPF.predict = ref_predict
    try:
        ref = make_opf()
        ref.fit(*fit_args)
    finally:
        KNNSupervisedOPF.predict = LIB_PREDICT

    return opf, ref


def compare(tag, opf, ref, X_q, I_q=None):
    global N_SCENARIOS
    N_SCENARIOS += 1

    if model_state(opf) != model_state(ref):
        FAILURES.append("%s: fitted model differs from the original fit" % tag)
        return

    want = ref_predict(opf, X_q, I_q)

    check(tag + " [batch]", opf.predict(X_q, I_q), want)
    # repeated call
    check(tag + " [again]", opf.predict(X_q, I_q), want)
    # one by one (first five)
    for i in range(min(5, len(X_q))):
        one = opf.predict(X_q[i : i + 1], None if I_q is None else I_q[i : i + 1])
        check(tag + " [single %d]" % i, one, want[i : i + 1])
    # reversed batch
    rev = opf.predict(X_q[::-1].copy(), None if I_q is None else I_q[::-1].copy())
    check(tag + " [reversed]", rev[::-1], want)


METRICS = [
    "log_squared_euclidean",
    "euclidean",
    "manhattan",
    "chebyshev",
    "squared_euclidean",
    "canberra",
    "chi_squared",
    "kullback_leibler",
]


def feature_scenario(seed):
    rng = np.random.RandomState(1000 + seed)
    metric = METRICS[seed % len(METRICS)]
    max_k = 1 + seed % 4
    n_train = int(rng.randint(18, 34))
    n_val = 10
    n_cls = int(rng.randint(2, 4))
    dim = int(rng.randint(1, 4))
    tie_heavy = seed % 3 == 0

    centers = rng.uniform(2.0, 9.0, size=(n_cls, dim))

    def draw(n):
        # every class shows up (opf_accuracy needs max(Y_val) >= any prediction)
        y = rng.permutation(np.arange(n) % n_cls)
        x = centers[y] + rng.normal(0.0, 0.8, size=(n, dim))
        if tie_heavy:
            x = np.round(x)
        x = np.abs(x) + 0.5
        return x, y + 1

    X_train, Y_train = draw(n_train)
    X_val, Y_val = draw(n_val)
    X_rand, _ = draw(8)
    # far-away / sparse queries, copies of training samples, duplicates
    X_far = np.abs(centers[rng.randint(0, n_cls, size=6)] * rng.uniform(1.5, 6.0, size=(6, 1))) + 0.5
    X_copy = X_train[rng.randint(0, n_train, size=6)].copy()
    X_q = np.vstack([X_rand, X_far, X_copy, X_train[:4], X_far[:2]])
    if tie_heavy:
        # duplicated training samples with different labels
        X_train[1] = X_train[0]
        X_train[3] = X_train[2]

    opf, ref = fit_both(
        lambda: KNNSupervisedOPF(max_k=max_k, distance=metric),
        (X_train, Y_train, X_val, Y_val),
    )
    compare("features seed=%d %s max_k=%d" % (seed, metric, max_k), opf, ref, X_q)


def precomputed_scenario(seed):
    rng = np.random.RandomState(5000 + seed)
    n = int(rng.randint(16, 28))
    max_k = 1 + seed % 3

    # arbitrary (asymmetric) matrix; small integers make ties the rule
    if seed % 2 == 0:
        M = rng.randint(0, 6, size=(n, n)).astype(float)
    else:
        M = np.round(rng.uniform(0.0, 4.0, size=(n, n)), 1)

    def make():
        opf = KNNSupervisedOPF(max_k=max_k)
        opf.pre_computed_distance = True
        opf.pre_distances = M
        return opf

    X_train = rng.normal(size=(n, 2))
    Y_train = rng.randint(1, 4, size=n)
    I_train = rng.permutation(n)
    X_val = rng.normal(size=(8, 2))
    Y_val = 1 + rng.permutation(np.arange(8) % 3)
    I_val = rng.randint(0, n, size=8)

    opf, ref = fit_both(make, (X_train, Y_train, X_val, Y_val, I_train, I_val))

    X_q = rng.normal(size=(n, 2))
    I_q = rng.permutation(n)
    compare("pre-computed seed=%d max_k=%d" % (seed, max_k), opf, ref, X_q, I_q)


def sparse_query_case():
    """The history that tells the variants apart: a query lying in a region
    that is sparser than its nearest training sample (its density does not
    exceed that neighbour's cost)."""

    global N_SCENARIOS
    N_SCENARIOS += 1

    X_train = np.array(
        [[0.0], [0.1], [0.2], [0.3], [0.45], [5.0], [5.1], [5.2], [5.35], [5.5]]
    )
    Y_train = np.array([1, 1, 1, 1, 1, 2, 2, 2, 2, 2])

    opf = KNNSupervisedOPF(max_k=2, distance="euclidean")
    opf.fit(X_train, Y_train, X_train, Y_train)

    X_q = np.array([[6.4], [-0.9], [2.4], [2.9], [5.05], [0.15]])
    want = ref_predict(opf, X_q)
    got = opf.predict(X_q)
    check("sparse queries", got, want)

    if want[0] != 2 or want[1] != 1:
        FAILURES.append("sparse queries: reference itself is off: %r" % (want,))
    for q, p in zip(X_q[:, 0], got):
        if p not in (1, 2):
            FAILURES.append(
                "sparse queries: x=%s got label %r, which no training sample carries"
                % (q, p)
            )


def main():
    for seed in range(32):
        feature_scenario(seed)
    for seed in range(12):
        precomputed_scenario(seed)
    sparse_query_case()

    print("scenarios: %d, compared predictions: %d" % (N_SCENARIOS, N_QUERIES))

    if FAILURES:
        print("MISMATCHES: %d" % len(FAILURES))
        for line in FAILURES[:15]:
            print("  " + line)
        return 1

    print("OK: identical to the original predict everywhere")
    return 0


if __name__ == "__main__":
    sys.exit(main())
