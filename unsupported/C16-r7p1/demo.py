"""Demo for C16 / p1 (UnsupervisedOPF: cached lookups + re-used cut accumulators).

Exit status 0  -> the installed opfython.models.unsupervised behaves exactly like the
                  original implementation (reference copies inlined below).
Exit status 1  -> a difference was observed (printed).

Run as: cd /tmp/wt/C16 && PYTHONPATH=/tmp/wt/C16 /venv/bin/python demo.py
"""

import logging
import sys

import numpy as np

logging.disable(logging.CRITICAL)
np.seterr(all="ignore")

import opfython.math.distance as d  # noqa: E402
import opfython.utils.constants as c  # noqa: E402
from opfython.models.unsupervised import UnsupervisedOPF  # noqa: E402


class ReferenceOPF(UnsupervisedOPF):
    """Verbatim copies of the ORIGINAL `_normalized_cut` and `_best_minimum_cut`."""

    def _normalized_cut(self, n_neighbours):
        internal_cluster = np.zeros(self.subgraph.n_clusters)
        external_cluster = np.zeros(self.subgraph.n_clusters)

        cut = 0.0

        for i in range(self.subgraph.n_nodes):
            n_adjacents = self.subgraph.nodes[i].n_plateaus + n_neighbours

            for k in range(n_adjacents):
                j = int(self.subgraph.nodes[i].adjacency[k])

                if self.pre_computed_distance:
                    distance = self.pre_distances[self.subgraph.nodes[i].idx][
                        self.subgraph.nodes[j].idx
                    ]
                else:
                    distance = self.distance_fn(
                        self.subgraph.nodes[i].features, self.subgraph.nodes[j].features
                    )

                if distance > 0.0:
                    if (
                        self.subgraph.nodes[i].cluster_label
                        == self.subgraph.nodes[j].cluster_label
                    ):
                        internal_cluster[self.subgraph.nodes[i].cluster_label] += (
                            1 / distance
                        )
                    else:
                        external_cluster[self.subgraph.nodes[i].cluster_label] += (
                            1 / distance
                        )

        for l in range(self.subgraph.n_clusters):
            if internal_cluster[l] + external_cluster[l] > 0.0:
                cut += external_cluster[l] / (internal_cluster[l] + external_cluster[l])

        return cut

    def _best_minimum_cut(self, min_k, max_k):
        max_distances = self.subgraph.create_arcs(
            max_k, self.distance_fn, self.pre_computed_distance, self.pre_distances
        )

        min_cut = c.FLOAT_MAX
        for k in range(min_k, max_k + 1):
            if min_cut != 0.0:
                self.subgraph.density = max_distances[k - 1]
                self.subgraph.best_k = k
                self.subgraph.calculate_pdf(
                    k, self.distance_fn, self.pre_computed_distance, self.pre_distances
                )

                self._clustering(k)

                cut = self._normalized_cut(k)
                if cut < min_cut:
                    min_cut = cut
                    best_k = k

        self.subgraph.destroy_arcs()

        self.subgraph.best_k = best_k

        self.subgraph.create_arcs(
            best_k, self.distance_fn, self.pre_computed_distance, self.pre_distances
        )
        self.subgraph.calculate_pdf(
            best_k, self.distance_fn, self.pre_computed_distance, self.pre_distances
        )


def spy(opf):
    """Records every (k, n_clusters, cut) evaluated by the cut routine."""

    trace = []
    inner = opf._normalized_cut

    def wrapped(n_neighbours):
        cut = inner(n_neighbours)
        trace.append((n_neighbours, opf.subgraph.n_clusters, repr(float(cut))))
        return cut

    opf._normalized_cut = wrapped
    return trace


def snapshot(opf, X_query, I_query):
    sg = opf.subgraph
    state = {
        "best_k": sg.best_k,
        "n_clusters": sg.n_clusters,
        "graph": [repr(float(v)) for v in (sg.density, sg.constant, sg.min_density, sg.max_density)],
        "idx_nodes": [int(v) for v in sg.idx_nodes],
        "nodes": [
            (
                n.cluster_label,
                n.pred,
                n.root,
                n.n_plateaus,
                repr(float(n.cost)),
                repr(float(n.density)),
                repr(float(n.radius)),
                [int(a) for a in n.adjacency],
            )
            for n in sg.nodes
        ],
    }
    preds, clusters = opf.predict(X_query, I_query)
    state["predict"] = (list(preds), list(clusters))
    return state


def run_history(cls, history):
    """A history is a list of fits performed on ONE classifier object."""

    out = []
    first = history[0]
    opf = cls(min_k=first["min_k"], max_k=first["max_k"], distance=first["distance"])
    trace = spy(opf)

    for step in history:
        opf.min_k = 1
        opf.max_k = step["max_k"]
        opf.min_k = step["min_k"]
        opf.distance = step["distance"]
        opf.distance_fn = d.DISTANCES[step["distance"]]

        if step["pre"] is not None:
            opf.pre_computed_distance = True
            opf.pre_distances = step["pre"]
        else:
            opf.pre_computed_distance = False
            opf.pre_distances = None

        del trace[:]
        try:
            opf.fit(step["X"], None, step["I"])
            out.append((list(trace), snapshot(opf, step["Xq"], step["Iq"])))
        except Exception as exc:  # the same failure is expected from both implementations
            out.append((list(trace), "raised %s" % type(exc).__name__))

    return out


def make_data(rng, kind, n):
    if kind == "blobs":
        centres = rng.normal(0.0, 4.0, size=(3, 2))
        X = centres[rng.integers(0, 3, size=n)] + rng.normal(0.0, 0.6, size=(n, 2))
    elif kind == "one_blob":
        X = rng.normal(0.0, 1.0, size=(n, 2))
    elif kind == "grid":  # tie-heavy: many equal distances
        X = rng.integers(0, 4, size=(n, 2)).astype(float)
    elif kind == "line":  # tie-heavy: equally spaced points
        X = np.stack([np.arange(n, dtype=float), np.zeros(n)], axis=1)
        X = X[rng.permutation(n)]
    elif kind == "dups":  # duplicated samples -> null distances
        base = rng.normal(0.0, 1.0, size=(max(3, n // 3), 2))
        X = base[rng.integers(0, len(base), size=n)]
    else:
        raise ValueError(kind)
    return np.ascontiguousarray(X + 5.0)


def make_step(rng, kind, n, min_k, max_k, distance, pre):
    X = make_data(rng, kind, n)
    Xq = make_data(rng, kind, 6)
    step = {"X": X, "Xq": Xq, "I": None, "Iq": None, "pre": None,
            "min_k": min_k, "max_k": max_k, "distance": distance}

    if pre:
        # Pre-computed distances with non-identity row ids
        everything = np.concatenate([X, Xq])
        perm = rng.permutation(len(everything))
        fn = d.DISTANCES[distance]
        matrix = np.zeros((len(everything), len(everything)))
        for a in range(len(everything)):
            for b in range(len(everything)):
                matrix[perm[a]][perm[b]] = fn(everything[a], everything[b])
        step["pre"] = matrix
        step["I"] = perm[: len(X)]
        step["Iq"] = perm[len(X):]

    return step


def seeded_histories():
    kinds = ["blobs", "one_blob", "grid", "line", "dups"]
    distances = ["log_squared_euclidean", "euclidean", "manhattan", "squared_euclidean", "chi_squared"]
    histories = []

    for seed in range(36):
        rng = np.random.default_rng(1000 + seed)
        kind = kinds[seed % len(kinds)]
        distance = distances[(seed // len(kinds)) % len(distances)]
        n = int(rng.integers(14, 26))
        min_k = 1 + seed % 2
        max_k = min_k + int(rng.integers(0, 5))
        pre = seed % 4 == 3
        history = [make_step(rng, kind, n, min_k, max_k, distance, pre)]

        if seed % 3 == 0:  # repeated fit of the same object on other data / other range
            kind2 = kinds[(seed + 1) % len(kinds)]
            history.append(make_step(rng, kind2, int(rng.integers(10, 30)), 1, 1 + seed % 5, distance, False))

        histories.append(("seed %d (%s, %s, k in [%d, %d]%s)" % (
            seed, kind, distance, min_k, max_k, ", pre-computed" if pre else ""), history))

    return histories


def exposing_history():
    """k = 1, 2 split the samples into several clusters (cut > 0, the accumulator of
    cluster 0 gathers some external weight); a larger candidate joins every sample in ONE
    cluster, whose cut is exactly 0 -> this is the k that has to be kept, and evaluation
    has to stop there."""

    rng = np.random.default_rng(7)
    X = np.ascontiguousarray(rng.normal(0.0, 1.0, size=(18, 2)) + 5.0)
    Xq = np.ascontiguousarray(rng.normal(0.0, 1.0, size=(5, 2)) + 5.0)
    step = {"X": X, "Xq": Xq, "I": None, "Iq": None, "pre": None,
            "min_k": 1, "max_k": 8, "distance": "euclidean"}
    return ("single-cluster candidate after multi-cluster candidates", [step])


def first_difference(ref, new):
    for number, ((ref_trace, ref_state), (new_trace, new_state)) in enumerate(zip(ref, new)):
        if ref_trace != new_trace:
            kept = ["raised" if isinstance(s, str) else s["best_k"] for s in (ref_state, new_state)]
            return ("fit #%d: evaluated (k, n_clusters, cut):\n    expected %s\n    got      %s\n"
                    "    best_k expected %s, got %s" % (number, ref_trace, new_trace, kept[0], kept[1]))
        if isinstance(ref_state, str) or isinstance(new_state, str):
            if ref_state != new_state:
                return "fit #%d: expected %s, got %s" % (number, ref_state, new_state)
            continue
        for key in ref_state:
            if ref_state[key] != new_state[key]:
                return "fit #%d: `%s` differs:\n    expected %s\n    got      %s" % (
                    number, key, ref_state[key], new_state[key])
    return None


def main():
    failures = 0
    histories = seeded_histories() + [exposing_history()]

    for name, history in histories:
        ref = run_history(ReferenceOPF, history)
        new = run_history(UnsupervisedOPF, history)
        diff = first_difference(ref, new)
        if diff is not None:
            failures += 1
            print("MISMATCH in %s\n  %s" % (name, diff))

    # The exposing history must really contain what it claims (guards the demo itself)
    name, history = exposing_history()
    (trace, state), = run_history(ReferenceOPF, history)
    assert trace[0][1] > 1 and trace[-1][1] == 1 and float(trace[-1][2]) == 0.0, trace
    assert state["best_k"] == trace[-1][0] and len(trace) < 8, (state["best_k"], trace)

    print("%d histories compared, %d mismatching" % (len(histories), failures))
    return 1 if failures else 0


if __name__ == "__main__":
    sys.exit(main())
