"""C18 / p2 demo - converter: struct.Struct / f-strings / explicit output buffer.

Exits 0 on the original code and on clean.diff, non-zero on broken.diff.

(1) writes > 30 seeded OPF binary files (many shapes, label sets, duplicated rows,
    special float32 values, shuffled identifiers) and checks that opf2txt / opf2csv /
    opf2json produce byte-identical files to a verbatim inline copy of the original
    converters, and that loading + parsing the three outputs gives the stored
    identifiers, labels - 1 and float32 features in all three formats;
(2) the specific input that exposes the slip: sample identifiers above 2**24
    that are not representable in float32 (e.g. 16777217).
"""

import json as j
import logging
import os
import shutil
import struct
import sys
import tempfile
import warnings

import numpy as np

logging.disable(logging.CRITICAL)
warnings.simplefilter("ignore")

from opfython.stream import loader, parser  # noqa: E402
from opfython.utils import converter  # noqa: E402


# --------------------------------------------------------------------------- #
# Reference: verbatim copy of the original converters (logging removed)
# --------------------------------------------------------------------------- #
def ref_opf2txt(opf_path, output_file=None):
    header_format = "<iii"
    header_size = struct.calcsize(header_format)

    with open(opf_path, "rb") as f:
        header_data = struct.unpack(header_format, f.read(header_size))

        n_samples = header_data[0]
        n_features = header_data[2]

        file_format = "<ii"
        for _ in range(n_features):
            file_format += "f"

        data_size = struct.calcsize(file_format)

        samples = []
        for _ in range(n_samples):
            data = struct.unpack(file_format, f.read(data_size))

            # Note that we subtract 1 from `labels` column
            samples.append((data[0], data[1] - 1, *data[2:]))

    if not output_file:
        output_file = opf_path.split(".")[0] + ".txt"

    np.savetxt(output_file, samples, delimiter=" ")


def ref_opf2csv(opf_path, output_file=None):
    header_format = "<iii"
    header_size = struct.calcsize(header_format)

    with open(opf_path, "rb") as f:
        header_data = struct.unpack(header_format, f.read(header_size))

        n_samples = header_data[0]
        n_features = header_data[2]

        file_format = "<ii"
        for _ in range(n_features):
            file_format += "f"

        data_size = struct.calcsize(file_format)

        samples = []
        for _ in range(n_samples):
            data = struct.unpack(file_format, f.read(data_size))

            # Note that we subtract 1 from `labels` column
            samples.append((data[0], data[1] - 1, *data[2:]))

    if not output_file:
        output_file = opf_path.split(".")[0] + ".csv"

    np.savetxt(output_file, samples, delimiter=",")


def ref_opf2json(opf_path, output_file=None):
    header_format = "<iii"
    header_size = struct.calcsize(header_format)

    with open(opf_path, "rb") as f:
        header_data = struct.unpack(header_format, f.read(header_size))

        n_samples = header_data[0]
        n_features = header_data[2]

        file_format = "<ii"
        for _ in range(n_features):
            file_format += "f"

        data_size = struct.calcsize(file_format)

        json = {"data": []}
        for _ in range(n_samples):
            data = struct.unpack(file_format, f.read(data_size))

            # Note that we subtract 1 from `labels` column
            json["data"].append(
                {"id": data[0], "label": data[1] - 1, "features": list(data[2:])}
            )

    if not output_file:
        output_file = opf_path.split(".")[0] + ".json"

    with open(output_file, "w") as f:
        j.dump(json, f)


# --------------------------------------------------------------------------- #
failures = []


def fail(msg):
    failures.append(msg)
    print("FAIL:", msg)


def write_opf(path, ids, labels, feats, n_classes):
    n, d = feats.shape
    with open(path, "wb") as f:
        f.write(struct.pack("<iii", n, n_classes, d))
        for i in range(n):
            f.write(struct.pack("<ii", int(ids[i]), int(labels[i])))
            f.write(feats[i].astype("<f4").tobytes())


def make_case(rng, k):
    sizes = [0, 1, 2, 3, 5, 8, 13, 21, 34, 50]
    dims = [1, 2, 3, 5, 0, 7, 12]
    n = sizes[k % len(sizes)]
    d = dims[k % len(dims)]
    n_classes = 1 + (k % 4)
    kind = k % 5

    if kind == 0:      # duplicated rows (tie-heavy)
        base = rng.integers(-2, 3, size=(3, d)).astype(np.float32)
        feats = base[rng.integers(0, 3, size=n)] if n else np.zeros((0, d), np.float32)
    elif kind == 1:    # values that are not exact in short decimal form
        feats = (rng.normal(size=(n, d)) * 1e3).astype(np.float32)
    elif kind == 2:    # tiny / huge / special values
        pool = np.array([0.0, -0.0, 1e-38, 3.4e38, -3.4e38, 1.17549435e-38,
                         0.1, 1.0 / 3.0, 16777217.0, np.inf, -np.inf], dtype=np.float32)
        feats = pool[rng.integers(0, len(pool), size=(n, d))]
    else:
        feats = rng.random(size=(n, d)).astype(np.float32)
    feats = np.asarray(feats, dtype=np.float32).reshape(n, d)

    # sequential labels 1..n_classes (every label present when possible)
    labels = (np.arange(n) % n_classes) + 1
    rng.shuffle(labels)

    # identifiers: 1..n, shuffled, or with an offset (all < 2**24 here)
    if k % 3 == 0:
        ids = np.arange(1, n + 1)
    elif k % 3 == 1:
        ids = rng.permutation(n) + 1
    else:
        ids = rng.permutation(n) * 37 + 1000 * (k + 1)
    return ids.astype(np.int64), labels.astype(np.int64), feats, n_classes


def check_case(tag, tmp, ids, labels, feats, n_classes):
    n, d = feats.shape
    src = os.path.join(tmp, tag + ".dat")
    write_opf(src, ids, labels, feats, n_classes)

    loaded = {}
    for ext, conv, ref, load in (
        ("txt", converter.opf2txt, ref_opf2txt, loader.load_txt),
        ("csv", converter.opf2csv, ref_opf2csv, loader.load_csv),
        ("json", converter.opf2json, ref_opf2json, loader.load_json),
    ):
        out = os.path.join(tmp, tag + "_out." + ext)
        exp = os.path.join(tmp, tag + "_ref." + ext)
        conv(src, out)
        ref(src, exp)
        with open(out, "rb") as f1, open(exp, "rb") as f2:
            if f1.read() != f2.read():
                fail("%s: .%s file differs from the one written by the original converter" % (tag, ext))

        if n >= 2:
            data = load(out)
            if data is None or data.shape != (n, d + 2):
                fail("%s: .%s loads with shape %r" % (tag, ext, None if data is None else data.shape))
                continue
            if not np.array_equal(data[:, 0], ids.astype(np.float64)):
                bad = np.flatnonzero(data[:, 0] != ids)[:3]
                fail("%s: .%s identifiers not preserved, e.g. stored %s -> loaded %s"
                     % (tag, ext, ids[bad].tolist(), data[bad, 0].tolist()))
            X, Y = parser.parse_loader(data)
            if not np.array_equal(Y, labels - 1):
                fail("%s: .%s labels are not the stored labels - 1" % (tag, ext))
            if not np.array_equal(np.asarray(X, dtype=np.float64), feats.astype(np.float64)):
                fail("%s: .%s features are not the stored float32 values" % (tag, ext))
            loaded[ext] = data

    if len(loaded) == 3:
        if not (np.array_equal(loaded["txt"], loaded["csv"]) and np.array_equal(loaded["txt"], loaded["json"])):
            fail("%s: the three formats do not load to identical arrays" % tag)


def main():
    rng = np.random.default_rng(18102)
    tmp = tempfile.mkdtemp(prefix="c18p2_")
    n_cases = 0
    try:
        # (1) seeded sweep
        for k in range(40):
            ids, labels, feats, n_classes = make_case(rng, k)
            check_case("sweep%02d" % k, tmp, ids, labels, feats, n_classes)
            n_cases += 1

        # default output name (derived from the input path)
        ids, labels, feats, n_classes = make_case(rng, 7)
        src = os.path.join(tmp, "named.dat")
        write_opf(src, ids, labels, feats, n_classes)
        for ext, conv, ref in (("txt", converter.opf2txt, ref_opf2txt),
                               ("csv", converter.opf2csv, ref_opf2csv),
                               ("json", converter.opf2json, ref_opf2json)):
            default = os.path.join(tmp, "named." + ext)
            conv(src)
            if not os.path.isfile(default):
                fail("default output name for .%s not honoured" % ext)
                continue
            with open(default, "rb") as f:
                got = f.read()
            os.remove(default)
            ref(src)
            with open(default, "rb") as f:
                if got != f.read():
                    fail("default-named .%s differs from original" % ext)
        n_cases += 1

        # (2) specific inputs: identifiers that float32 cannot hold
        big_sets = [
            np.array([16777217, 16777219, 16777221, 16777223, 16777225, 16777227]),
            np.array([2**24 + 1, 2**25 + 3, 2**26 + 5, 2**30 + 7, 2**31 - 1, 123456789]),
            np.array([5, 16777216, 16777217, 16777218, 99999999, 2**24 - 1]),
            np.arange(20_000_001, 20_000_013),
        ]
        for b, ids in enumerate(big_sets):
            n = len(ids)
            feats = rng.normal(size=(n, 3)).astype(np.float32)
            feats[1] = feats[0]  # duplicated row
            labels = (np.arange(n) % 2) + 1
            check_case("bigid%d" % b, tmp, ids.astype(np.int64), labels, feats, 2)
            n_cases += 1
    finally:
        shutil.rmtree(tmp, ignore_errors=True)

    print("cases: %d, failures: %d" % (n_cases, len(failures)))
    return 1 if failures else 0


if __name__ == "__main__":
    sys.exit(main())
